(* IBAN validation (model) = ISO 13616 (spec), for every configuration/table passing the decidable
   obligations cfg_ok / row_ok.  Generic: does not mention Gen/. *)
From Coq Require Import Lia ZifyBool ZifyN.
From Schwifty Require Import Lib.Base Lib.Regex Model.Clean Model.Data Model.Iban Spec.Iso13616.
From Schwifty Require Import Proofs.RegexFacts Proofs.CleanFacts Proofs.NumFacts Proofs.RunsFacts.
Ltac Zify.zify_post_hook ::= Z.to_euclidean_division_equations.

(* ---- slicing a compact IBAN ------------------------------------------------------------------ *)

Lemma len_cons (c : N) s : len (c :: s) = (len s + 1)%Z.
Proof. unfold len. simpl length. lia. Qed.
Lemma len_nonneg s : (0 <= len s)%Z.
Proof. unfold len. lia. Qed.

Lemma slice_cc c1 c2 r : get_slice (c1 :: c2 :: r) 0 (Some 2%Z) = [c1; c2].
Proof.
  unfold get_slice. rewrite !len_cons. pose proof (len_nonneg r).
  replace ((0 <? len r + 1 + 1) && (2 <=? len r + 1 + 1))%Z with true by lia.
  unfold py_slice, norm_idx. rewrite !len_cons.
  replace (0 <? 0)%Z with false by lia. replace (2 <? 0)%Z with false by lia.
  replace (Z.min 0 (len r + 1 + 1)) with 0%Z by lia. replace (Z.min 2 (len r + 1 + 1)) with 2%Z by lia.
  reflexivity.
Qed.

Lemma slice_dd c1 c2 d1 d2 r : get_slice (c1 :: c2 :: d1 :: d2 :: r) 2 (Some 4%Z) = [d1; d2].
Proof.
  unfold get_slice. rewrite !len_cons. pose proof (len_nonneg r).
  replace ((2 <? len r + 1 + 1 + 1 + 1) && (4 <=? len r + 1 + 1 + 1 + 1))%Z with true by lia.
  unfold py_slice, norm_idx. rewrite !len_cons.
  replace (2 <? 0)%Z with false by lia. replace (4 <? 0)%Z with false by lia.
  replace (Z.min 2 (len r + 1 + 1 + 1 + 1)) with 2%Z by lia.
  replace (Z.min 4 (len r + 1 + 1 + 1 + 1)) with 4%Z by lia.
  reflexivity.
Qed.

Lemma slice_bban c1 c2 d1 d2 b : get_slice (c1 :: c2 :: d1 :: d2 :: b) 4 None = b.
Proof.
  unfold get_slice. rewrite !len_cons. destruct b as [|x b].
  - reflexivity.
  - rewrite len_cons. pose proof (len_nonneg b).
    replace (4 <? len b + 1 + 1 + 1 + 1 + 1)%Z with true by lia.
    unfold py_slice_from, norm_idx. rewrite !len_cons.
    replace (4 <? 0)%Z with false by lia.
    replace (Z.min 4 (len b + 1 + 1 + 1 + 1 + 1)) with 4%Z by lia. reflexivity.
Qed.

Lemma slice_head4 c1 c2 d1 d2 b : py_slice_to (c1 :: c2 :: d1 :: d2 :: b) 4 = [c1; c2; d1; d2].
Proof.
  unfold py_slice_to, py_slice, norm_idx. rewrite !len_cons. pose proof (len_nonneg b).
  replace (0 <? 0)%Z with false by lia. replace (4 <? 0)%Z with false by lia.
  replace (Z.min 0 (len b + 1 + 1 + 1 + 1)) with 0%Z by lia.
  replace (Z.min 4 (len b + 1 + 1 + 1 + 1)) with 4%Z by lia. reflexivity.
Qed.

Lemma cc_of c1 c2 r : iban_country_code (c1 :: c2 :: r) = [c1; c2].
Proof. apply slice_cc. Qed.
Lemma dd_of c1 c2 d1 d2 r : iban_checksum_digits (c1 :: c2 :: d1 :: d2 :: r) = [d1; d2].
Proof. apply slice_dd. Qed.

(* ---- obligations ----------------------------------------------------------------------------- *)

Definition step_eqb (a b : istep) : bool :=
  match a, b with
  | SChars, SChars | SLength, SLength | SFormat, SFormat | SChecksum, SChecksum | SNational, SNational => true
  | _, _ => false
  end.
Definition has_step (st : istep) (l : list istep) : bool := existsb (step_eqb st) l.

Definition upper_cps : text := seqN 65 26.
Definition digit_cps : text := seqN 48 10.

(* every text starting with two capitals and two digits passes the character check *)
Definition chars_ok (cfg : iban_cfg) : bool :=
  match ic_chars_method cfg with MFull => false | _ => true end
  && negb (rp_eol (ic_chars_pat cfg))
  && forallb (fun c1 => forallb (fun c2 => forallb (fun d1 => forallb (fun d2 =>
       matches (compile (rp_body (ic_chars_pat cfg))) [c1; c2; d1; d2])
       digit_cps) digit_cps) upper_cps) upper_cps.

Definition cfg_ok (cfg : iban_cfg) : bool :=
  text_eqb (ic_alphabet cfg) std_alphabet
  && has_step SLength (ic_steps cfg) && has_step SFormat (ic_steps cfg) && has_step SChecksum (ic_steps cfg)
  && chars_ok cfg.

Definition cc_ok (cc : text) : bool :=
  match cc with [c1; c2] => is_ascii_upper c1 && is_ascii_upper c2 | _ => false end.

Definition row_ok (fmt : remethod) (r : row) : bool :=
  match runs_of (rp_body (r_regex r)), row_kinds r with
  | Some rs, Some kds =>
    agree_all (expand rs) kds
    && Z.eqb (Z.of_nat (length kds)) (r_bban_length r)
    && Z.eqb (r_iban_length r) (r_bban_length r + 4)
    && match fmt with
       | MFull => true
       | MMatch => rp_eol (r_regex r)
       | MSearch => rp_bol (r_regex r) && rp_eol (r_regex r)
       end
    && cc_ok (r_cc r)
  | _, _ => false
  end.

Definition env_alpha_ok (e : env) : bool := forallb (clean_char e) std_alphabet.

Lemma in_seqN c : forall n a, (a <= c < a + N.of_nat n)%N -> In c (seqN a n).
Proof.
  induction n as [|n IH]; intros a H; simpl; [lia|].
  destruct (N.eq_dec a c) as [->|Hne]; [left; reflexivity|right; apply IH; lia].
Qed.

(* ---- the equivalence ------------------------------------------------------------------------- *)

Section Main.
Variable e : env.
Variable cfg : iban_cfg.
Variable T : table.
Variable national : text -> text -> outcome bool.
Hypothesis WF : env_wf e = true.
Hypothesis EA : env_alpha_ok e = true.
Hypothesis CFG : cfg_ok cfg = true.
Hypothesis TAB : forallb (row_ok (ic_format_method cfg)) T = true.

Let ALPHA : ic_alphabet cfg = std_alphabet.
Proof.
  unfold cfg_ok in CFG. repeat (apply andb_true_iff in CFG as [CFG ?]). apply text_eqb_eq. exact CFG.
Qed.

Lemma find_row_in cc r : find_row T cc = Some r -> In r T /\ r_cc r = cc.
Proof.
  unfold find_row. intro H. apply find_some in H as [Hin Heq]. apply text_eqb_eq in Heq. auto.
Qed.

Lemma row_ok_of cc r : find_row T cc = Some r -> row_ok (ic_format_method cfg) r = true.
Proof. intro H. apply find_row_in in H as [Hin _]. rewrite forallb_forall in TAB. apply TAB. exact Hin. Qed.

Lemma alpha_cleaned s : forallb in_alpha s = true -> cleaned e s = true.
Proof.
  unfold cleaned. rewrite !forallb_forall. intros H c Hc. specialize (H c Hc).
  unfold env_alpha_ok in EA. rewrite forallb_forall in EA. apply EA. apply in_alpha_std. exact H.
Qed.

(* how the format check reads on a cleaned BBAN *)
Lemma format_iff r b rs :
  row_ok (ic_format_method cfg) r = true -> cleaned e b = true ->
  runs_of (rp_body (r_regex r)) = Some rs ->
  pat_apply (ic_format_method cfg) (r_regex r) b = conforms_cls (expand rs) b.
Proof.
  intros Hok Hb Hrs. unfold row_ok in Hok. rewrite Hrs in Hok.
  destruct (row_kinds r) as [kds|]; [|discriminate].
  repeat (apply andb_true_iff in Hok as [Hok ?]).
  assert (Hm : matches (compile (rp_body (r_regex r))) b = conforms_cls (expand rs) b).
  { apply eq_true_iff_eq. rewrite matches_lang. apply runs_lang. exact Hrs. }
  unfold pat_apply. destruct (ic_format_method cfg).
  - exact Hm.
  - match goal with X : rp_eol _ = true |- _ => rewrite X end.
    rewrite prefix_match_eol_full by (apply (cleaned_no_nl e WF); exact Hb). exact Hm.
  - match goal with X : rp_bol _ && rp_eol _ = true |- _ => apply andb_true_iff in X as [Xb Xe]; rewrite Xb, Xe end.
    rewrite prefix_match_eol_full by (apply (cleaned_no_nl e WF); exact Hb). exact Hm.
Qed.

Lemma run_steps_ok vb s l :
  run_steps e cfg T national vb s l = Ok tt <-> forall st, In st l -> run_step e cfg T national vb s st = Ok tt.
Proof.
  induction l as [|st l IH]; simpl.
  - split; [intros _ st []|reflexivity].
  - destruct (run_step e cfg T national vb s st) as [[]| |] eqn:E; simpl.
    + rewrite IH. split.
      * intros H st' [<-|Hin]; [exact E|apply H; exact Hin].
      * intros H st' Hin. apply H. right. exact Hin.
    + split; [discriminate|]. intro H. specialize (H st (or_introl eq_refl)). congruence.
    + split; [discriminate|]. intro H. specialize (H st (or_introl eq_refl)). congruence.
Qed.

Lemma has_step_in st l : has_step st l = true -> In st l.
Proof.
  unfold has_step. intro H. apply existsb_exists in H as (x & Hin & Hx).
  destruct st, x; try discriminate; exact Hin.
Qed.

Lemma chars_pass c1 c2 d1 d2 b :
  is_ascii_upper c1 = true -> is_ascii_upper c2 = true ->
  is_ascii_digit d1 = true -> is_ascii_digit d2 = true ->
  validate_characters cfg (c1 :: c2 :: d1 :: d2 :: b) = Ok tt.
Proof.
  intros U1 U2 D1 D2.
  assert (Hc : chars_ok cfg = true).
  { unfold cfg_ok in CFG. apply andb_true_iff in CFG as [_ H]. exact H. }
  unfold chars_ok in Hc. apply andb_true_iff in Hc as [Hc Hall]. apply andb_true_iff in Hc as [Hm Heol].
  apply negb_true_iff in Heol.
  assert (Hin_u : forall c, is_ascii_upper c = true -> In c upper_cps).
  { intros c H. apply in_seqN. unfold is_ascii_upper, cA, cZ in H. lia. }
  assert (Hin_d : forall c, is_ascii_digit c = true -> In c digit_cps).
  { intros c H. apply in_seqN. unfold is_ascii_digit, c0, c9 in H. lia. }
  rewrite forallb_forall in Hall. specialize (Hall c1 (Hin_u c1 U1)).
  rewrite forallb_forall in Hall. specialize (Hall c2 (Hin_u c2 U2)).
  rewrite forallb_forall in Hall. specialize (Hall d1 (Hin_d d1 D1)).
  rewrite forallb_forall in Hall. specialize (Hall d2 (Hin_d d2 D2)).
  apply matches_lang in Hall.
  assert (Hp : prefix_match (compile (rp_body (ic_chars_pat cfg))) (rp_eol (ic_chars_pat cfg))
                 (c1 :: c2 :: d1 :: d2 :: b) = true).
  { apply prefix_match_spec. exists [c1; c2; d1; d2], b. split; [reflexivity|]. split; [exact Hall|].
    rewrite Heol. reflexivity. }
  unfold validate_characters, pat_apply.
  destruct (ic_chars_method cfg); [discriminate| |].
  - rewrite Hp. reflexivity.
  - destruct (rp_bol (ic_chars_pat cfg)).
    + rewrite Hp. reflexivity.
    + cbn [search_from]. rewrite Hp. reflexivity.
Qed.

Theorem validate_iff s :
  cleaned e s = true ->
  (iban_validate e cfg T national false s = Ok true <-> iso_ok T s = true).
Proof.
  intro Hs. unfold iban_validate.
  assert (Hsteps : run_steps e cfg T national false s (ic_steps cfg) = Ok tt <-> iso_ok T s = true).
  2:{ destruct (run_steps e cfg T national false s (ic_steps cfg)) as [[]| |]; simpl;
      rewrite <- Hsteps; split; intro H; try reflexivity; try discriminate. }
  rewrite run_steps_ok. split.
  - (* accepted -> ISO *)
    intro Hall.
    assert (HL : In SLength (ic_steps cfg) /\ In SFormat (ic_steps cfg) /\ In SChecksum (ic_steps cfg)).
    { unfold cfg_ok in CFG. repeat (apply andb_true_iff in CFG as [CFG ?]).
      repeat split; apply has_step_in; assumption. }
    destruct HL as (HL & HF & HC).
    pose proof (Hall _ HL) as EL. pose proof (Hall _ HF) as EF. pose proof (Hall _ HC) as EC.
    cbn [run_step] in EL, EF, EC.
    unfold validate_length, iban_spec in EL.
    destruct (find_row T (iban_country_code s)) as [r|] eqn:Er; [|discriminate].
    cbn [bind] in EL. destruct (Z.eqb_spec (r_iban_length r) (len s)) as [Hlen|]; [|discriminate].
    pose proof (row_ok_of _ _ Er) as Hok. pose proof Hok as Hok'. unfold row_ok in Hok'.
    destruct (runs_of (rp_body (r_regex r))) as [rs|] eqn:Ers; [|discriminate].
    destruct (row_kinds r) as [kds|] eqn:Ek; [|discriminate].
    repeat (apply andb_true_iff in Hok' as [Hok' ?]).
    match goal with X : Z.eqb (Z.of_nat (length kds)) _ = true |- _ => apply Z.eqb_eq in X; rename X into Hk end.
    match goal with X : Z.eqb (r_iban_length r) _ = true |- _ => apply Z.eqb_eq in X; rename X into Hil end.
    (* so s has at least four characters *)
    assert (H4 : (4 <= len s)%Z) by lia.
    destruct s as [|c1 [|c2 [|d1 [|d2 b]]]]; try (unfold len in H4; simpl in H4; lia).
    rewrite cc_of in Er.
    assert (Hb : cleaned e b = true) by (apply (cleaned_skipn e 4) in Hs; exact Hs).
    assert (Hbban : iban_bban e (c1 :: c2 :: d1 :: d2 :: b) = b).
    { unfold iban_bban. rewrite slice_bban. apply cleaned_fix. exact Hb. }
    (* format *)
    unfold validate_format, iban_spec in EF. rewrite cc_of, Er in EF. cbn [bind] in EF.
    rewrite Hbban, (format_iff r b rs Hok Hb Ers) in EF.
    destruct (conforms_cls (expand rs) b) eqn:Ecf; [|discriminate].
    (* checksum *)
    unfold validate_iban_checksum, iban_numeric in EC.
    rewrite Hbban, slice_head4, cc_of, dd_of in EC.
    rewrite (numerify_nonempty cfg ALPHA) in EC by (destruct b; discriminate).
    destruct (forallb in_alpha (b ++ [c1; c2; d1; d2])) eqn:Eal; [|discriminate].
    cbn [bind] in EC.
    destruct (Z.eqb_spec (iso_num (b ++ [c1; c2; d1; d2]) mod 97) 1) as [Hmod|]; [|discriminate].
    cbn [negb] in EC. unfold iso7064_compute, concat_text in EC. cbn [concat] in EC. rewrite app_nil_r in EC.
    rewrite (numerify_nonempty cfg ALPHA) in EC by (destruct b; discriminate).
    rewrite forallb_app in Eal. apply andb_true_iff in Eal as [Eb E4].
    assert (Ecc : forallb in_alpha [c1; c2] = true).
    { change [c1; c2; d1; d2] with ([c1; c2] ++ [d1; d2]) in E4. rewrite forallb_app in E4.
      apply andb_true_iff in E4 as [E4 _]. exact E4. }
    assert (Ebc : forallb in_alpha (b ++ [c1; c2]) = true) by (rewrite forallb_app, Eb, Ecc; reflexivity).
    rewrite Ebc in EC. cbn [bind] in EC.
    set (M := iso_num (b ++ [c1; c2])) in *.
    pose proof (check_value_range M) as Hv.
    rewrite two_digits_fmt in EC by lia.
    destruct (text_eqb (two_digits (98 - (M * 100) mod 97)) [d1; d2]) eqn:Etd; [|discriminate].
    apply text_eqb_eq in Etd.
    destruct (two_digits_digits (98 - (M * 100) mod 97)%Z ltac:(lia)) as (x1 & x2 & Hx & Hx1 & Hx2 & Hxv).
    rewrite Hx in Etd. inversion Etd; subst x1 x2.
    (* assemble *)
    unfold iso_ok. rewrite Er, Hx1, Hx2. cbn [andb].
    assert (Hconf : conforms_row r b = true).
    { unfold conforms_row. rewrite Ek.
      rewrite <- (agree_conforms (expand rs) kds b) by assumption. rewrite Ecf, andb_true_r.
      apply Z.eqb_eq. apply conforms_cls_length in Ecf.
      assert (length (expand rs) = length kds).
      { clear -Hok'. revert Hok'. generalize (expand rs). intro ks. revert kds.
        induction ks as [|k ks IH]; intros [|kd kds] H; simpl in H; try reflexivity; try discriminate.
        apply andb_true_iff in H as [_ H]. simpl. f_equal. apply IH. exact H. }
      unfold len. lia. }
    rewrite Hconf, Hmod. cbn [andb Z.eqb]. lia.
  - (* ISO -> every step passes *)
    intro Hiso. unfold iso_ok in Hiso.
    destruct s as [|c1 [|c2 [|d1 [|d2 b]]]]; try discriminate.
    destruct (find_row T [c1; c2]) as [r|] eqn:Er; [|discriminate].
    apply andb_true_iff in Hiso as [Hiso Hrange]. apply andb_true_iff in Hiso as [Hiso Hmod].
    apply andb_true_iff in Hiso as [Hiso Hconf]. apply andb_true_iff in Hiso as [D1 D2].
    apply Z.eqb_eq in Hmod.
    pose proof (row_ok_of _ _ Er) as Hok. pose proof Hok as Hok'. unfold row_ok in Hok'.
    destruct (runs_of (rp_body (r_regex r))) as [rs|] eqn:Ers; [|discriminate].
    unfold conforms_row in Hconf.
    destruct (row_kinds r) as [kds|] eqn:Ek; [|discriminate].
    apply andb_true_iff in Hconf as [Hlen Hconf]. apply Z.eqb_eq in Hlen.
    repeat (apply andb_true_iff in Hok' as [Hok' ?]).
    match goal with X : Z.eqb (r_iban_length r) _ = true |- _ => apply Z.eqb_eq in X; rename X into Hil end.
    match goal with X : cc_ok (r_cc r) = true |- _ => rename X into Hcc end.
    destruct (find_row_in _ _ Er) as [_ Hrcc]. rewrite Hrcc in Hcc. cbn [cc_ok] in Hcc.
    apply andb_true_iff in Hcc as [U1 U2].
    assert (Hb : cleaned e b = true) by (apply (cleaned_skipn e 4) in Hs; exact Hs).
    assert (Hbban : iban_bban e (c1 :: c2 :: d1 :: d2 :: b) = b).
    { unfold iban_bban. rewrite slice_bban. apply cleaned_fix. exact Hb. }
    assert (Eb : forallb in_alpha b = true).
    { apply (conforms_alpha kds); [apply (agree_not_e (expand rs)); exact Hok'|exact Hconf]. }
    intros st _. destruct st; cbn [run_step].
    + apply chars_pass; assumption.
    + unfold validate_length, iban_spec. rewrite cc_of, Er. cbn [bind].
      rewrite !len_cons. replace (r_iban_length r =? len b + 1 + 1 + 1 + 1)%Z with true by lia. reflexivity.
    + unfold validate_format, iban_spec. rewrite cc_of, Er. cbn [bind].
      rewrite Hbban, (format_iff r b rs Hok Hb Ers).
      rewrite (agree_conforms (expand rs) kds b) by assumption. rewrite Hconf. reflexivity.
    + unfold validate_iban_checksum, iban_numeric.
      rewrite Hbban, slice_head4, cc_of, dd_of.
      rewrite (numerify_nonempty cfg ALPHA) by (destruct b; discriminate).
      assert (E4 : forallb in_alpha [c1; c2; d1; d2] = true).
      { simpl. unfold in_alpha. rewrite U1, U2, D1, D2. rewrite !orb_true_r. reflexivity. }
      assert (Eal : forallb in_alpha (b ++ [c1; c2; d1; d2]) = true) by (rewrite forallb_app, Eb, E4; reflexivity).
      rewrite Eal. cbn [bind]. rewrite Hmod. cbn [Z.eqb negb Pos.eqb].
      unfold iso7064_compute, concat_text. cbn [concat]. rewrite app_nil_r.
      rewrite (numerify_nonempty cfg ALPHA) by (destruct b; discriminate).
      assert (Ebc : forallb in_alpha (b ++ [c1; c2]) = true).
      { rewrite forallb_app, Eb. simpl. unfold in_alpha. rewrite U1, U2, !orb_true_r. reflexivity. }
      rewrite Ebc. cbn [bind].
      set (M := iso_num (b ++ [c1; c2])) in *.
      pose proof (check_value_range M) as Hv. rewrite two_digits_fmt by lia.
      assert (Hnum : iso_num (b ++ [c1; c2; d1; d2]) = (M * 100 + (Z.of_N (d1 - 48) * 10 + Z.of_N (d2 - 48)))%Z).
      { change [c1; c2; d1; d2] with ([c1; c2] ++ [d1; d2]). rewrite app_assoc, iso_num_from, iso_from_app.
        rewrite iso_from_digits by assumption. reflexivity. }
      rewrite Hnum in Hmod.
      set (dd := (Z.of_N (d1 - 48) * 10 + Z.of_N (d2 - 48))%Z) in *.
      assert (Hdd : (0 <= dd <= 99)%Z).
      { unfold dd. unfold is_ascii_digit, c0, c9 in D1, D2. lia. }
      assert (Heq : dd = (98 - (M * 100) mod 97)%Z) by (apply mod97_unique; [exact Hdd|split; [exact Hmod|lia]]).
      rewrite <- Heq. unfold dd. rewrite two_digits_inv by assumption. rewrite text_eqb_refl. reflexivity.
    + reflexivity.
Qed.

End Main.
