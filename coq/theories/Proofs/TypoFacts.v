(* C03: the mod-97 check detects every single same-kind substitution (after the country code) and
   every adjacent same-kind transposition, on the rearranged, letter-expanded number. *)
From Coq Require Import Lia ZifyBool ZifyN.
From Schwifty Require Import Lib.Base Model.Data Spec.Iso13616 Proofs.NumFacts.
Ltac Zify.zify_post_hook ::= Z.to_euclidean_division_equations.

Fixpoint p10 (k : nat) : Z := match k with O => 1 | S k' => 10 * p10 k' end.

Lemma p10_pos k : (0 < p10 k)%Z.
Proof. induction k; cbn [p10]; lia. Qed.

Lemma p10_add a b : p10 (a + b) = (p10 a * p10 b)%Z.
Proof. induction a; cbn [p10 Nat.add]; lia. Qed.

Definition width (c : N) : nat := if is_ascii_digit c then 1 else 2.
Definition cval (c : N) : Z := if is_ascii_digit c then Z.of_N (c - 48) else Z.of_N (c - 55).
Fixpoint dwidth (s : text) : nat := match s with [] => 0 | c :: r => width c + dwidth r end.

Lemma iso_step_eq acc c : iso_step acc c = (acc * p10 (width c) + cval c)%Z.
Proof. unfold iso_step, width, cval. destruct (is_ascii_digit c); simpl; lia. Qed.

Lemma iso_from_split s : forall acc, iso_from acc s = (acc * p10 (dwidth s) + iso_from 0 s)%Z.
Proof.
  induction s as [|c s IH]; intro acc; simpl.
  - unfold iso_from. simpl. lia.
  - unfold iso_from in *. cbn [fold_left]. rewrite IH. rewrite (IH (iso_step 0 c)).
    rewrite !iso_step_eq, p10_add. lia.
Qed.

Lemma dwidth_app a b : dwidth (a ++ b) = dwidth a + dwidth b.
Proof. induction a; simpl; lia. Qed.

(* value of  u ++ [c] ++ v *)
Lemma iso_num_mid u c v :
  iso_num (u ++ c :: v) =
  ((iso_num u * p10 (width c) + cval c) * p10 (dwidth v) + iso_from 0 v)%Z.
Proof.
  rewrite !iso_num_from, iso_from_app. unfold iso_from at 1. cbn [fold_left].
  fold (iso_from (iso_step (iso_from 0 u) c) v). rewrite iso_from_split, iso_step_eq. reflexivity.
Qed.

Lemma mul10_div97 x : ((x * 10) mod 97 = 0 -> x mod 97 = 0)%Z.
Proof. lia. Qed.

Lemma p10_div97 k : forall d, ((d * p10 k) mod 97 = 0 -> d mod 97 = 0)%Z.
Proof.
  induction k as [|k IH]; intros d H; simpl in H.
  - replace (d * 1)%Z with d in H by lia. exact H.
  - apply IH. apply mul10_div97. replace (d * p10 k * 10)%Z with (d * (10 * p10 k))%Z by lia. exact H.
Qed.

Definition same_kind (a b : N) : bool :=
  (is_ascii_digit a && is_ascii_digit b) || (is_ascii_upper a && is_ascii_upper b).

Lemma same_kind_width a b : same_kind a b = true -> width a = width b.
Proof.
  unfold same_kind, width, is_ascii_digit, is_ascii_upper, c0, c9, cA, cZ. intro H.
  destruct (N.leb 48 a && N.leb a 57) eqn:Ea; destruct (N.leb 48 b && N.leb b 57) eqn:Eb; try reflexivity; lia.
Qed.

Lemma same_kind_val a b : same_kind a b = true -> cval a = cval b -> a = b.
Proof.
  unfold same_kind, cval, is_ascii_digit, is_ascii_upper, c0, c9, cA, cZ. intros H Hv.
  destruct (N.leb 48 a && N.leb a 57) eqn:Ea; destruct (N.leb 48 b && N.leb b 57) eqn:Eb; lia.
Qed.

Lemma same_kind_bound a b : same_kind a b = true -> (-36 < cval a - cval b < 36)%Z.
Proof.
  unfold same_kind, cval, is_ascii_digit, is_ascii_upper, c0, c9, cA, cZ. intros H.
  destruct (N.leb 48 a && N.leb a 57) eqn:Ea; destruct (N.leb 48 b && N.leb b 57) eqn:Eb; lia.
Qed.

(* substitution inside the rearranged number *)
Lemma subst_detected u x y v :
  same_kind x y = true -> x <> y ->
  (iso_num (u ++ y :: v) mod 97 = 1)%Z -> (iso_num (u ++ x :: v) mod 97 <> 1)%Z.
Proof.
  intros Hk Hne Hy Hx. rewrite iso_num_mid in Hx, Hy. rewrite (same_kind_width _ _ Hk) in Hx.
  set (A := (iso_num u * p10 (width y))%Z) in *. set (P := p10 (dwidth v)) in *. set (R := iso_from 0 v) in *.
  assert (Hd : (((cval x - cval y) * P) mod 97 = 0)%Z).
  { replace ((cval x - cval y) * P)%Z with (((A + cval x) * P + R) - ((A + cval y) * P + R))%Z by lia.
    generalize dependent ((A + cval x) * P + R)%Z. generalize dependent ((A + cval y) * P + R)%Z. intros. lia. }
  apply p10_div97 in Hd. pose proof (same_kind_bound _ _ Hk).
  assert (cval x = cval y) by lia. apply Hne. apply same_kind_val; assumption.
Qed.

(* adjacent transposition inside the rearranged number *)
Lemma iso_num_mid2 u a b v :
  iso_num (u ++ a :: b :: v) =
  (((iso_num u * p10 (width a) + cval a) * p10 (width b) + cval b) * p10 (dwidth v) + iso_from 0 v)%Z.
Proof.
  rewrite iso_num_mid. cbn [dwidth]. rewrite p10_add.
  pose proof (iso_num_mid [] b v) as H. cbn [app] in H. rewrite iso_num_from in H. rewrite H.
  cbn [iso_num fold_left]. lia.
Qed.

Lemma swap_detected u a b v :
  same_kind a b = true -> a <> b ->
  (iso_num (u ++ a :: b :: v) mod 97 = 1)%Z -> (iso_num (u ++ b :: a :: v) mod 97 <> 1)%Z.
Proof.
  intros Hk Hne Hy Hx. rewrite iso_num_mid2 in Hx, Hy.
  pose proof (same_kind_width _ _ Hk) as Hw. rewrite Hw in *.
  set (W := p10 (width b)) in *. set (P := p10 (dwidth v)) in *. set (R := iso_from 0 v) in *.
  set (A := iso_num u) in *.
  assert (HW : (W = 10 \/ W = 100)%Z) by (unfold W, width; destruct (is_ascii_digit b); cbn [p10]; lia).
  assert (Hd : (((cval a - cval b) * (W - 1) * P) mod 97 = 0)%Z).
  { match type of Hy with (?Y mod 97 = 1)%Z => match type of Hx with (?X mod 97 = 1)%Z =>
      replace ((cval a - cval b) * (W - 1) * P)%Z with (Y - X)%Z by lia;
      generalize dependent Y; generalize dependent X end end. intros. lia. }
  apply p10_div97 in Hd. pose proof (same_kind_bound _ _ Hk).
  assert (cval a = cval b) by (destruct HW as [HW | HW]; rewrite HW in Hd; lia).
  apply Hne. apply same_kind_val; assumption.
Qed.

(* the seam: last check digit and first BBAN character are adjacent in the text but sit at the two
   ends of the rearranged number *)
Definition seam_ok : bool :=
  forallb (fun k => negb (Z.eqb (p10 k mod 97) 1)) (seq 1 95).

Lemma seam_sweep : seam_ok = true.
Proof. vm_compute. reflexivity. Qed.

Lemma p10_not1 k : 1 <= k <= 95 -> (p10 k mod 97 <> 1)%Z.
Proof.
  intros Hk H. pose proof seam_sweep as S. unfold seam_ok in S. rewrite forallb_forall in S.
  specialize (S k). rewrite (proj2 (Z.eqb_eq _ _) H) in S. simpl in S.
  assert (In k (seq 1 95)) by (apply in_seq; lia). specialize (S H0). discriminate.
Qed.

Lemma dwidth_le s : dwidth s <= 2 * length s.
Proof. induction s as [|c s IH]; simpl; [lia|]. unfold width. destruct (is_ascii_digit c); lia. Qed.

Lemma seam_detected a b m :
  is_ascii_digit a = true -> is_ascii_digit b = true -> a <> b ->
  length m <= 32 ->
  (iso_num (b :: m ++ [a]) mod 97 = 1)%Z -> (iso_num (a :: m ++ [b]) mod 97 <> 1)%Z.
Proof.
  intros Da Db Hne Hlen Hy Hx.
  assert (F : forall x y, iso_num (x :: m ++ [y]) =
     (cval x * p10 (dwidth m + width y) + (iso_from 0 m * p10 (width y) + cval y))%Z).
  { intros x y. pose proof (iso_num_mid [] x (m ++ [y])) as H. cbn [app] in H. rewrite H.
    cbn [iso_num fold_left]. rewrite dwidth_app. cbn [dwidth]. rewrite Nat.add_0_r.
    rewrite iso_from_app. change (iso_from (iso_from 0 m) [y]) with (iso_step (iso_from 0 m) y).
    rewrite iso_step_eq, p10_add. lia. }
  rewrite F in Hx, Hy.
  assert (Wa : width a = 1) by (unfold width; rewrite Da; reflexivity).
  assert (Wb : width b = 1) by (unfold width; rewrite Db; reflexivity).
  rewrite Wa, Wb in *.
  set (K := dwidth m + 1) in *. set (R := iso_from 0 m) in *.
  assert (HK : 1 <= K <= 95).
  { unfold K. pose proof (dwidth_le m). lia. }
  pose proof (p10_not1 K HK) as Hp. pose proof (p10_pos K).
  assert (Hv : (0 <= cval a <= 9 /\ 0 <= cval b <= 9 /\ cval a <> cval b)%Z).
  { unfold cval. rewrite Da, Db. unfold is_ascii_digit, c0, c9 in Da, Db. lia. }
  change (p10 1) with 10%Z in Hx, Hy.
  assert (Hd : (((cval a - cval b) * (p10 K - 1)) mod 97 = 0)%Z).
  { match type of Hy with (?Y mod 97 = 1)%Z => match type of Hx with (?X mod 97 = 1)%Z =>
      replace ((cval a - cval b) * (p10 K - 1))%Z with (X - Y)%Z by lia;
      generalize dependent Y; generalize dependent X end end. intros. lia. }
  (* 97 is prime: it divides (a-b) or (10^K - 1); |a-b| <= 9 *)
  assert (Hg : ((p10 K - 1) mod 97 <> 0)%Z) by lia.
  destruct Hv as (Ha & Hb & Hab).
  generalize dependent (p10 K). intros PK _ _ _ _ Hd Hg.
  assert (Hcases : (cval a - cval b = 1 \/ cval a - cval b = 2 \/ cval a - cval b = 3 \/ cval a - cval b = 4 \/
                    cval a - cval b = 5 \/ cval a - cval b = 6 \/ cval a - cval b = 7 \/ cval a - cval b = 8 \/
                    cval a - cval b = 9 \/ cval a - cval b = -1 \/ cval a - cval b = -2 \/ cval a - cval b = -3 \/
                    cval a - cval b = -4 \/ cval a - cval b = -5 \/ cval a - cval b = -6 \/ cval a - cval b = -7 \/
                    cval a - cval b = -8 \/ cval a - cval b = -9)%Z) by lia.
  repeat (destruct Hcases as [Hc | Hcases]; [rewrite Hc in Hd; lia|]). rewrite Hcases in Hd. lia.
Qed.
