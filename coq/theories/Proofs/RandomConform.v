(* BBAN.random returns a BBAN that conforms to the country's structure (C13), on the regenerated tables. *)
From Coq Require Import Lia ZArith List Bool.
From Schwifty Require Import Lib.Base Lib.Lit Model.Clean Model.Data Model.Iban Model.Bban Model.Generate
  Model.National Model.Algorithms Model.Germany Model.Registry Model.Lookup Model.Random.
From Schwifty Require Import Spec.Iso13616 Spec.RegistrySpec.
From Schwifty Require Import Proofs.CleanFacts Proofs.NumFacts Proofs.IbanFacts Proofs.IbanTheorems Proofs.DecompFacts Proofs.NationalFacts
  Proofs.PlaceFacts Proofs.ComputeShape Proofs.RandomFacts Proofs.GenObligations Proofs.GenerateFacts Proofs.GenerateTotal
  Proofs.ConformFacts Proofs.RandomGen.
From Schwifty Require Import Gen.Env Gen.IbanData Gen.IbanCfg Gen.ChecksumCfg Gen.GermanyTbl Gen.Banks.
Import ListNotations.

(* data: no per-country default value is the empty text *)
Lemma gen_defaults_nonempty_obl :
  forallb (fun r => forallb (fun kv => nonempty_text (snd kv)) (r_defaults r)) the_table = true.
Proof. vm_cast_no_check (eq_refl true). Qed.

(* over any bank registry with clean codes (the bundled one is plugged in below) *)
Lemma random_conforms_R (R : banks) : forallb (fun en => cleaned the_env (e_code en)) R = true ->
  forall cc0 reg pins ci bi draws cc b r ps,
  random_bban the_env the_components the_table the_algos R cc0 reg pins ci bi draws = Ok (cc, b) ->
  find_row the_table cc = Some r -> r_positions r = Some ps ->
  (forall k v, In (k, v) pins -> cleaned the_env v = true /\ v <> []) ->
  (forall d, In d draws -> cleaned the_env (upper the_env d) = true /\ len (upper the_env d) = r_bban_length r) ->
  conforms_row r b = true.
Proof.
  intros HCODES cc0 reg pins ci bi draws cc b r ps H Er Eps HPINS HDRAWS.
  destruct (random_built_values the_env the_components the_table the_algos R env_obl gen_zero_obl
              cc0 reg pins ci bi draws cc b r ps H Er Eps) as (d & bank & Hd & HbankR & Hfc).
  pose proof (find_row_in _ _ _ Er) as [Hin Ecc].
  assert (HP : forall k v, In (k, v) pins -> cleaned the_env v = true) by (intros k v Hkv; exact (proj1 (HPINS k v Hkv))).
  assert (HPne : forall k v, In (k, v) pins -> v <> []) by (intros k v Hkv; exact (proj2 (HPINS k v Hkv))).
  assert (HB : forall en, bank = Some en -> cleaned the_env (e_code en) = true).
  { intros en Hen. rewrite forallb_forall in HCODES. exact (HCODES en (HbankR en Hen)). }
  assert (HD : forall k0 v0, In (k0, v0) (r_defaults r) -> cleaned the_env v0 = true).
  { intros k0 v0 Hkv. pose proof gen_defaults_clean_obl as O. rewrite forallb_forall in O.
    specialize (O r Hin). rewrite forallb_forall in O. exact (O (k0, v0) Hkv). }
  assert (HDne : forall k0 v0, In (k0, v0) (r_defaults r) -> v0 <> []).
  { intros k0 v0 Hkv. pose proof gen_defaults_nonempty_obl as O. rewrite forallb_forall in O.
    specialize (O r Hin). rewrite forallb_forall in O. specialize (O (k0, v0) Hkv). cbn [snd] in O.
    intro E. subst v0. discriminate. }
  destruct (HDRAWS d Hd) as [HDRAW HDLEN].
  pose proof (layout_of cc r Er) as LAY.
  pose proof (rnd_only the_env the_components the_table the_algos R env_obl gen_zero_obl cc r bank pins d Er LAY HP HB HD HDRAW) as ONLY.
  destruct (row_facts cc r Er) as (ks & items & Hp & Eks & _ & Hlen & _).
  assert (Hks : classes_of r = Some ks) by (unfold classes_of; rewrite Hp, Eks; reflexivity).
  apply (built_conforms cc r (rnd_comps2 the_env the_components r bank pins d) Er ONLY b ks Hks Hfc).
  intros k Hk Hne Hun _.
  unfold checked_key in Hun. repeat (apply orb_false_iff in Hun as [Hun ?]).
  pose proof (rnd_wd_nonneg the_env the_components the_table the_algos R env_obl gen_zero_obl cc r bank pins d Er LAY HP HB HD HDRAW k Hk) as Hw0.
  destruct (Z.eqb_spec (width r k) 0) as [Hz|Hnz].
  - specialize (Hlen k Hk). rewrite Hz in Hlen. destruct (kinds_at r ks k); [reflexivity|cbn [List.length] in Hlen; lia].
  - exfalso.
    assert (Hne' : get_val k (rnd_comps2 the_env the_components r bank pins d) <> []).
    { apply (comps2_nonempty the_env the_components the_table the_algos R env_obl gen_zero_obl cc r bank pins d Er LAY HP HB HD HDRAW k Hk); try assumption.
      unfold width, rng in *. lia. }
    destruct (get_val k (rnd_comps2 the_env the_components r bank pins d)); [congruence|discriminate].
Qed.

(* BBAN.random: with clean non-empty pins and draws of the country's BBAN length, what comes back conforms to the
   country's BBAN structure position by position *)
Theorem gen_random_conforms : forall cc0 reg pins ci bi draws cc b r ps,
  random_bban' cc0 reg pins ci bi draws = Ok (cc, b) ->
  find_row the_table cc = Some r -> r_positions r = Some ps ->
  (forall k v, In (k, v) pins -> cleaned the_env v = true /\ v <> []) ->
  (forall d, In d draws -> cleaned the_env (upper the_env d) = true /\ len (upper the_env d) = r_bban_length r) ->
  conforms_row r b = true.
Proof. exact (random_conforms_R the_banks gen_codes_clean_obl). Qed.

(* a country without field positions: the first draw, upper-cased and cleaned, comes back as it is *)
Theorem gen_random_no_positions : forall cc0 reg pins ci bi draws cc b r,
  random_bban' cc0 reg pins ci bi draws = Ok (cc, b) ->
  find_row the_table cc = Some r -> r_positions r = None ->
  exists d rest, draws = d :: rest /\ b = clean the_env (upper the_env d).
Proof.
  intros cc0 reg pins ci bi draws cc b r H Er Eps.
  unfold random_bban', random_bban in H. cbv zeta in H. unfold get_spec in H.
  set (cc' := match cc0 with [] => nth ci (country_keys the_banks) [] | _ => cc0 end) in *. clearbody cc'.
  destruct (find_row the_table cc') as [r'|] eqn:Er'; [|discriminate]. cbn [bind] in H.
  assert (Ecc : cc = cc').
  { destruct (r_positions r'); [destruct (attempts _ _ _ _ _ _ _ _ _ _)|destruct draws]; cbn [bind] in H; congruence. }
  subst cc'. rewrite Er in Er'. inversion Er'; subst r'. rewrite Eps in H.
  destruct draws as [|d rest]; [discriminate|]. exists d, rest. split; [reflexivity|]. congruence.
Qed.
