(* BBAN.random / IBAN.random on the regenerated tables (C13). *)
From Coq Require Import Lia ZArith List Bool.
From Schwifty Require Import Lib.Base Lib.Lit Model.Clean Model.Data Model.Iban Model.Bban Model.Generate
  Model.National Model.Algorithms Model.Germany Model.Registry Model.Lookup Model.Random.
From Schwifty Require Import Spec.Iso13616 Spec.RegistrySpec.
From Schwifty Require Import Proofs.CleanFacts Proofs.NumFacts Proofs.IbanFacts Proofs.IbanTheorems Proofs.DecompFacts Proofs.NationalFacts
  Proofs.PlaceFacts Proofs.ComputeShape Proofs.RandomFacts Proofs.GenObligations Proofs.GenerateFacts.
From Schwifty Require Import Gen.Env Gen.IbanData Gen.IbanCfg Gen.ChecksumCfg Gen.GermanyTbl Gen.Banks.
Import ListNotations.

(* ---- C13: random generation ------------------------------------------------------------------------------------------ *)

Lemma from_bban_parts national cc r b s :
  find_row the_table cc = Some r ->
  iban_from_bban the_env the_iban_cfg the_table national cc b false false = Ok s ->
  iso_ok the_table s = true /\
  (cleaned the_env b = true -> iban_bban the_env s = b /\ iban_country_code s = cc).
Proof.
  intros Er H. unfold iban_from_bban in H.
  destruct (iso7064_compute the_iban_cfg [b; cc]) as [d|x|x] eqn:Ed; try discriminate. cbn [bind] in H.
  assert (Hiso : iso_ok the_table (clean the_env (cc ++ d ++ b)) = true).
  { apply (new_iff the_env the_iban_cfg the_table national env_obl env_alpha_obl cfg_obl table_obl). exists s. exact H. }
  pose proof (new_result the_env the_iban_cfg the_table national env_obl env_alpha_obl cfg_obl table_obl _ _ H) as Es.
  split; [rewrite Es; exact Hiso|]. intro Hcl.
  destruct (row_facts the_iban_cfg the_table table_obl cc r Er) as (c1 & c2 & kds & Ecc & U1 & U2 & _).
  unfold iso7064_compute in Ed. destruct (Iban.numerify the_iban_cfg (concat_text [b; cc])) as [n|x|x]; try discriminate.
  cbn [bind] in Ed. pose proof (check_value_range n) as Hr. rewrite two_digits_fmt in Ed by lia.
  destruct (two_digits_digits (98 - (n * 100) mod 97)%Z ltac:(lia)) as (x1 & x2 & Hx & D1 & D2 & _).
  rewrite Hx in Ed. inversion Ed as [Ed']. subst d cc. clear Ed.
  assert (Hhead : cleaned the_env ([c1; c2] ++ [x1; x2]) = true).
  { apply (alpha_cleaned the_env env_alpha_obl). cbn [app forallb]. unfold in_alpha. rewrite U1, U2, D1, D2, !orb_true_r. reflexivity. }
  assert (Hall : cleaned the_env ([c1; c2] ++ [x1; x2] ++ b) = true).
  { rewrite app_assoc, cleaned_app, Hhead, Hcl. reflexivity. }
  rewrite (cleaned_fix the_env _ Hall) in Es. subst s. cbn [app]. split.
  - unfold iban_bban. rewrite slice_bban. apply (cleaned_fix the_env). exact Hcl.
  - apply cc_of.
Qed.

Definition random_bban' := random_bban the_env the_components the_table the_algos the_banks.
Definition random_iban' (national : text -> text -> outcome bool) :=
  iban_random the_env the_iban_cfg the_table national the_components the_algos the_banks.

(* data: every registered bank code and every per-country default value is clean text *)
Lemma gen_codes_clean_obl : forallb (fun en => cleaned the_env (e_code en)) the_banks = true.
Proof. vm_cast_no_check (eq_refl true). Qed.
Lemma gen_defaults_clean_obl : forallb (fun r => forallb (fun kv => cleaned the_env (snd kv)) (r_defaults r)) the_table = true.
Proof. vm_cast_no_check (eq_refl true). Qed.

(* never an invalid object *)
Theorem gen_random_valid : forall national cc0 reg pins ci bi draws s,
  random_iban' national cc0 reg pins ci bi draws = Ok s -> iso_ok the_table s = true.
Proof.
  intros national cc0 reg pins ci bi draws s H. unfold random_iban', iban_random in H.
  destruct (random_bban _ _ _ _ _ cc0 reg pins ci bi draws) as [[cc b]|x|x] eqn:E; try discriminate. cbn [bind fst snd] in H.
  destruct (find_row the_table cc) as [r|] eqn:Er.
  - exact (proj1 (from_bban_parts national cc r b s Er H)).
  - unfold random_bban, get_spec in E. cbv zeta in E.
    assert (cc = match cc0 with [] => nth ci (country_keys the_banks) [] | _ => cc0 end).
    { destruct (find_row the_table (match cc0 with [] => nth ci (country_keys the_banks) [] | _ => cc0 end)) as [r0|];
        [|discriminate]. cbn [bind] in E.
      destruct (r_positions r0); [destruct (attempts _ _ _ _ _ _ _ _ _ _)|destruct draws]; cbn [bind] in E; congruence. }
    subst cc. rewrite Er in E. discriminate.
Qed.

(* of the requested country *)
Theorem gen_random_country : forall cc0 reg pins ci bi draws cc b,
  cc0 <> [] -> random_bban' cc0 reg pins ci bi draws = Ok (cc, b) -> cc = cc0.
Proof.
  intros cc0 reg pins ci bi draws cc b Hne H. unfold random_bban', random_bban in H. cbv zeta in H.
  destruct cc0 as [|c0 cc0']; [congruence|].
  destruct (get_spec the_table (c0 :: cc0')) as [r|x|x]; try discriminate. cbn [bind] in H.
  destruct (r_positions r); [destruct (attempts _ _ _ _ _ _ _ _ _ _)|destruct draws]; cbn [bind] in H; congruence.
Qed.

(* the documented overflow error is the only library error besides an unknown country *)
Theorem gen_random_errors : forall cc0 reg pins ci bi draws x,
  random_bban' cc0 reg pins ci bi draws = Err x -> x = EGenerateRandomOverflow \/ x = EInvalidCountryCode.
Proof.
  intros cc0 reg pins ci bi draws x H. unfold random_bban', random_bban in H. cbv zeta in H.
  unfold get_spec in H. destruct (find_row the_table _) as [r|]; [|inversion H; right; reflexivity]. cbn [bind] in H.
  destruct (r_positions r); [|destruct draws; discriminate].
  destruct (attempts _ _ _ _ _ _ _ _ _ _) as [b|y|y] eqn:E; try discriminate. cbn [bind] in H. inversion H; subst y.
  left. exact (attempts_err _ _ _ _ _ _ _ _ _ _ _ E).
Qed.

(* a pinned component of its field's width (not the computed check-digit field) comes back unchanged; what comes back
   has the country's BBAN length and is clean text *)
Theorem gen_random_pins : forall cc0 reg pins ci bi draws cc b r ps,
  random_bban' cc0 reg pins ci bi draws = Ok (cc, b) ->
  find_row the_table cc = Some r -> r_positions r = Some ps ->
  (forall k v, In (k, v) pins -> cleaned the_env v = true) ->
  (forall d, In d draws -> cleaned the_env (upper the_env d) = true) ->
  len b = r_bban_length r /\ cleaned the_env b = true /\
  forall k v, assoc k pins = Some v -> In k the_components -> text_eqb k k_national = false -> len v = width r k ->
  get_slice b (fst (rng r k)) (Some (snd (rng r k))) = v.
Proof.
  intros cc0 reg pins ci bi draws cc b r ps H Er Eps HP HDRAWS.
  assert (HD : forall k0 v0, In (k0, v0) (r_defaults r) -> cleaned the_env v0 = true).
  { intros k0 v0 Hin. pose proof gen_defaults_clean_obl as O. rewrite forallb_forall in O.
    specialize (O r (proj1 (find_row_in _ _ _ Er))). rewrite forallb_forall in O. exact (O (k0, v0) Hin). }
  exact (random_pins the_env the_components the_table the_algos the_banks env_obl gen_zero_obl cc0 reg pins ci bi draws cc b r ps
           H Er Eps (layout_of cc r Er) gen_codes_clean_obl HD HP HDRAWS (fun vals K => gen_shape cc r Er vals K)).
Qed.

(* the same read off the IBAN that IBAN.random returns *)
Theorem gen_random_iban_pins : forall national cc0 reg pins ci bi draws s cc b r ps,
  random_bban' cc0 reg pins ci bi draws = Ok (cc, b) ->
  random_iban' national cc0 reg pins ci bi draws = Ok s ->
  find_row the_table cc = Some r -> r_positions r = Some ps ->
  (forall k v, In (k, v) pins -> cleaned the_env v = true) ->
  (forall d, In d draws -> cleaned the_env (upper the_env d) = true) ->
  iban_country_code s = cc /\ iban_bban the_env s = b /\
  forall k v, assoc k pins = Some v -> In k the_components -> text_eqb k k_national = false -> len v = width r k ->
  field r k s = v.
Proof.
  intros national cc0 reg pins ci bi draws s cc b r ps Hb Hs Er Eps HP HDRAWS.
  destruct (gen_random_pins cc0 reg pins ci bi draws cc b r ps Hb Er Eps HP HDRAWS) as (_ & Hcl & Hpins).
  unfold random_iban', iban_random in Hs. unfold random_bban' in Hb. rewrite Hb in Hs. cbn [bind fst snd] in Hs.
  destruct (from_bban_parts national cc r b s Er Hs) as [_ Hparts]. destruct (Hparts Hcl) as [E1 E2].
  split; [exact E2|]. split; [exact E1|]. intros k v Hp Hk Hnn Hl. unfold field. rewrite E1. exact (Hpins k v Hp Hk Hnn Hl).
Qed.

From Coq Require Import String.
Open Scope list_scope.
(* C09 for the random producer: a randomly drawn BBAN of a country that computes check digits passes the national
   validation (the drawn - or pinned - digits in the check-digit field are replaced by the computed ones) *)
Theorem gen_random_national_valid : forall cc0 reg pins ci bi draws cc b r ps cls acc w,
  random_bban' cc0 reg pins ci bi draws = Ok (cc, b) ->
  find_row the_table cc = Some r -> r_positions r = Some ps -> text_eqb cc (tx "DE") = false ->
  assoc (cc ++ [58%N] ++ k_default) registered = Some (cls, acc) -> class_width cls = Some w ->
  (forall k v, In (k, v) pins -> cleaned the_env v = true) ->
  (forall d, In d draws -> cleaned the_env (upper the_env d) = true) ->
  validate_national the_table the_algos (bank_code_entries the_banks) cc b = Ok true.
Proof.
  intros cc0 reg pins ci bi draws cc b r ps cls acc w H Er Eps Hde Hreg Hw HP HDRAWS.
  assert (HD : forall k0 v0, In (k0, v0) (r_defaults r) -> cleaned the_env v0 = true).
  { intros k0 v0 Hin. pose proof gen_defaults_clean_obl as O. rewrite forallb_forall in O.
    specialize (O r (proj1 (find_row_in _ _ _ Er))). rewrite forallb_forall in O. exact (O (k0, v0) Hin). }
  destruct (random_built the_env the_components the_table the_algos the_banks env_obl gen_zero_obl cc0 reg pins ci bi draws cc b r ps
              H Er Eps (layout_of cc r Er) gen_codes_clean_obl HD HP HDRAWS) as (values & Hb & ONLY).
  exact (built_national_valid cc r cls acc w values b Er Hde Hreg Hw Hb ONLY).
Qed.

(* ---- a registry-based draw belongs to a listed bank ------------------------------------------------------------------ *)
(* every registry entry of the country carries a bank code of the width of the bank-identifying field (bank code, or
   bank code followed by branch code) *)
Definition all_fit (cc : text) : bool := all_fit_gen the_components the_table the_banks cc.

Theorem gen_random_listed : forall cc0 reg pins ci bi draws cc b r ps,
  reg = true ->
  random_bban' cc0 reg pins ci bi draws = Ok (cc, b) ->
  find_row the_table cc = Some r -> r_positions r = Some ps -> all_fit cc = true ->
  (forall k v, In (k, v) pins -> cleaned the_env v = true) ->
  (forall d, In d draws -> cleaned the_env (upper the_env d) = true) ->
  assoc k_bank pins = None -> assoc k_branch pins = None ->
  (bi < List.length (country_entries the_banks cc))%nat ->
  exists x, bban_bank the_table (bank_code_entries the_banks) cc b = Ok (Some x) /\ In x the_banks /\ e_cc x = cc
    /\ bban_lookup_key the_table cc b = Ok (e_code x).
Proof.
  intros cc0 reg pins ci bi draws cc b r ps Hreg H Er Eps Hfit HP HDRAWS NB NBR Hbi.
  assert (HD : forall k0 v0, In (k0, v0) (r_defaults r) -> cleaned the_env v0 = true).
  { intros k0 v0 Hin. pose proof gen_defaults_clean_obl as O. rewrite forallb_forall in O.
    specialize (O r (proj1 (find_row_in _ _ _ Er))). rewrite forallb_forall in O. exact (O (k0, v0) Hin). }
  assert (Hcc : cc <> []).
  { destruct (row_facts the_iban_cfg the_table table_obl cc r Er) as (c1 & c2 & kds & Ecc & _). rewrite Ecc. discriminate. }
  exact (random_listed the_env the_components the_table the_algos the_banks env_obl gen_zero_obl cc0 reg pins ci bi draws cc b r ps
           Hreg H Er Eps (layout_of cc r Er) Hcc gen_codes_clean_obl HD HP HDRAWS (fun vals K => gen_shape cc r Er vals K) NB NBR Hbi
           (all_fit_entries the_components the_table the_banks cc r Er Hfit)).
Qed.
