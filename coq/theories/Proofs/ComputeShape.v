(* What the national check-digit algorithms return, whatever they are given: clean text of a fixed width
   (or nothing).  BBAN.from_components writes that text into the check-digit field. *)
From Coq Require Import Lia ZArith List Bool ZifyBool ZifyN String.
Open Scope list_scope.
From Schwifty Require Import Lib.Base Lib.Lit Model.Clean Model.Data Model.Bban Model.National.
From Schwifty Require Import Spec.Iso13616.
From Schwifty Require Import Proofs.CleanFacts Proofs.NumFacts Proofs.NationalDigits.
Import ListNotations.
Ltac Zify.zify_post_hook ::= Z.to_euclidean_division_equations.

Lemma Ok_inj {A} (a b : A) : Ok a = Ok b -> a = b.
Proof. intro H. injection H as H. exact H. Qed.

Definition shape (w : nat) (K : text) : Prop := List.length K = w /\ forallb in_alpha K = true.
(* the finer fact: the computed text is made of digits (every class but Italy's, which computes a capital letter) *)
Definition dshape (w : nat) (K : text) : Prop := List.length K = w /\ forallb is_ascii_digit K = true.
Lemma dshape_shape w K : dshape w K -> shape w K.
Proof.
  intros [H1 H2]. split; [exact H1|]. rewrite forallb_forall in *. intros c Hc. unfold in_alpha. rewrite (H2 c Hc). reflexivity.
Qed.

Lemma digit_dshape v : (0 <= v <= 9)%Z -> dshape 1 (str_of_Z v).
Proof.
  intro H. rewrite (str_one v H). split; [reflexivity|]. cbn [forallb]. unfold is_ascii_digit, c0, c9.
  rewrite andb_true_r. lia.
Qed.

Lemma two_dshape v : (0 <= v <= 99)%Z -> dshape 2 (fmt0d 2 v).
Proof.
  intro H. rewrite two_digits_fmt by exact H.
  destruct (two_digits_digits v H) as (d1 & d2 & E & D1 & D2 & _). rewrite E. split; [reflexivity|].
  cbn [forallb]. rewrite D1, D2. reflexivity.
Qed.

Lemma dshape_app a b x y : dshape a x -> dshape b y -> dshape (a + b) (x ++ y).
Proof. intros [H1 H2] [H3 H4]. split; [rewrite app_length; lia|rewrite forallb_app, H2, H4; reflexivity]. Qed.

Section Shapes.
Variable e : env.
Variable nd : list (N * N).
Variable alphabet : text.

Lemma iso_family_dshape pre post cs K :
  (forall r, (0 <= r < 97)%Z -> (0 <= post r <= 99)%Z) ->
  iso_family pre post cs = Ok K -> dshape 2 K.
Proof.
  intros Hp H. unfold iso_family in H. destruct (pre cs) as [n|x|x]; try discriminate. cbn [bind] in H.
  inversion H. apply two_dshape. apply Hp. lia.
Qed.

Lemma be_dshape cs K : be_compute alphabet cs = Ok K -> dshape 2 K.
Proof. apply iso_family_dshape. intros r Hr. destruct (Z.eqb_spec r 0); lia. Qed.
Lemma iso_dshape cs K : iso_compute alphabet cs = Ok K -> dshape 2 K.
Proof. apply iso_family_dshape. intros r Hr. lia. Qed.
Lemma variant_dshape cs K : variant_compute alphabet cs = Ok K -> dshape 2 K.
Proof. apply iso_family_dshape. intros r Hr. lia. Qed.
Lemma fr_dshape cs K : fr_compute nd cs = Ok K -> dshape 2 K.
Proof.
  unfold fr_compute. destruct cs as [|a [|b [|c [|d cs]]]]; try discriminate.
  apply iso_family_dshape. intros r Hr. lia.
Qed.

Lemma weighted_range v m ws d : (0 < m)%Z -> weighted nd v m ws = Ok d -> (0 <= d < m)%Z.
Proof.
  intros Hm H. unfold weighted in H. destruct (weighted_sum nd ws v) as [s|x|x]; try discriminate.
  cbn [bind] in H. inversion H. apply Z.mod_pos_bound. exact Hm.
Qed.

Lemma es_dshape cs K : es_compute nd cs = Ok K -> dshape 2 K.
Proof.
  unfold es_compute. destruct cs as [|a [|b [|c [|d cs]]]]; try discriminate.
  destruct (weighted nd (a ++ b) 11 _) as [w1|x|x] eqn:E1; try discriminate. cbn [bind].
  destruct (weighted nd c 11 _) as [w2|x|x] eqn:E2; try discriminate. cbn [bind]. intro H. apply Ok_inj in H. subst K.
  apply weighted_range in E1; [|lia]. apply weighted_range in E2; [|lia].
  assert (R : forall w, (0 <= w < 11)%Z -> (0 <= es_reconcile (11 - w) <= 9)%Z).
  { intros w Hw. unfold es_reconcile. destruct (Z.eqb_spec (11 - w) 11); [lia|]. destruct (Z.eqb_spec (11 - w) 10); lia. }
  apply (dshape_app 1 1); apply digit_dshape; apply R; assumption.
Qed.

Lemma upper_letters_alpha : forallb in_alpha upper_letters = true.
Proof. vm_compute. reflexivity. Qed.

Lemma it_shape cs K : it_compute e cs = Ok K -> shape 1 K.
Proof.
  unfold it_compute. destruct (it_sum e 0 (concat_text cs)) as [s|x|x]; try discriminate. cbn [bind].
  destruct (nth_error upper_letters (Z.to_nat (s mod 26))) as [c|] eqn:E; [|discriminate]. intro H. apply Ok_inj in H. subst K.
  split; [reflexivity|]. cbn [forallb]. rewrite andb_true_r.
  pose proof upper_letters_alpha as A. rewrite forallb_forall in A. apply A. exact (nth_error_In _ _ E).
Qed.

Lemma it_ushape cs K : it_compute e cs = Ok K -> List.length K = 1%nat /\ forallb is_ascii_upper K = true.
Proof.
  unfold it_compute. destruct (it_sum e 0 (concat_text cs)) as [s|x|x]; try discriminate. cbn [bind].
  destruct (nth_error upper_letters (Z.to_nat (s mod 26))) as [c|] eqn:E; [|discriminate]. intro H. apply Ok_inj in H. subst K.
  split; [reflexivity|]. cbn [forallb]. rewrite andb_true_r.
  assert (A : forallb is_ascii_upper upper_letters = true) by (vm_compute; reflexivity).
  rewrite forallb_forall in A. apply A. exact (nth_error_In _ _ E).
Qed.

Lemma fi_dshape cs K : fi_compute nd alphabet cs = Ok K -> dshape 1 K.
Proof.
  unfold fi_compute, luhn. destruct (alpha_digits alphabet _) as [n|x|x]; try discriminate. cbn [bind].
  destruct (luhn_processed nd 0 (rev n)) as [p|x|x]; try discriminate. cbn [bind].
  destruct (digit_sum_text nd p) as [s|x|x]; try discriminate. cbn [bind]. intro H. apply Ok_inj in H. subst K.
  apply digit_dshape. lia.
Qed.

Lemma no_digit m : (0 <= m < 11)%Z -> (11 - m)%Z <> 10%Z -> (0 <= (11 - m) mod 11 <= 9)%Z.
Proof. intros H1 H2. lia. Qed.

Lemma no_dshape cs K : no_compute nd cs = Ok K -> dshape 1 K.
Proof.
  unfold no_compute. destruct cs as [|a [|b [|c cs]]]; try discriminate.
  destruct (weighted_sum nd no_weights _) as [t|x|x]; try discriminate. cbn [bind]. cbv zeta.
  pose proof (Z.mod_pos_bound t 11 ltac:(lia)) as Hm. set (m := (t mod 11)%Z) in *. clearbody m.
  destruct (Z.eqb_spec (11 - m) 10) as [|Hne]; [discriminate|]. intro H. apply Ok_inj in H. subst K.
  apply digit_dshape. apply no_digit; assumption.
Qed.

Lemma pl_dshape cs K : pl_compute nd cs = Ok K -> dshape 1 K.
Proof.
  unfold pl_compute. destruct (weighted nd _ 10 _) as [d|x|x] eqn:E; try discriminate. cbn [bind]. intro H. apply Ok_inj in H. subst K.
  apply weighted_range in E; [|lia]. apply digit_dshape. destruct (Z.eqb_spec d 0); lia.
Qed.

Lemma ee_dshape cs K : ee_compute nd cs = Ok K -> dshape 1 K.
Proof.
  unfold ee_compute. cbv zeta. destruct (weighted nd _ 10 _) as [d|x|x] eqn:E; try discriminate. cbn [bind]. intro H. apply Ok_inj in H. subst K.
  apply weighted_range in E; [|lia]. apply digit_dshape. destruct (Z.eqb_spec d 0); lia.
Qed.


Lemma be_shape cs K : be_compute alphabet cs = Ok K -> shape 2 K.
Proof. intro H. exact (dshape_shape _ _ (be_dshape cs K H)). Qed.
Lemma iso_shape cs K : iso_compute alphabet cs = Ok K -> shape 2 K.
Proof. intro H. exact (dshape_shape _ _ (iso_dshape cs K H)). Qed.
Lemma variant_shape cs K : variant_compute alphabet cs = Ok K -> shape 2 K.
Proof. intro H. exact (dshape_shape _ _ (variant_dshape cs K H)). Qed.
Lemma fr_shape cs K : fr_compute nd cs = Ok K -> shape 2 K.
Proof. intro H. exact (dshape_shape _ _ (fr_dshape cs K H)). Qed.
Lemma es_shape cs K : es_compute nd cs = Ok K -> shape 2 K.
Proof. intro H. exact (dshape_shape _ _ (es_dshape cs K H)). Qed.
Lemma fi_shape cs K : fi_compute nd alphabet cs = Ok K -> shape 1 K.
Proof. intro H. exact (dshape_shape _ _ (fi_dshape cs K H)). Qed.
Lemma no_shape cs K : no_compute nd cs = Ok K -> shape 1 K.
Proof. intro H. exact (dshape_shape _ _ (no_dshape cs K H)). Qed.
Lemma pl_shape cs K : pl_compute nd cs = Ok K -> shape 1 K.
Proof. intro H. exact (dshape_shape _ _ (pl_dshape cs K H)). Qed.
Lemma ee_shape cs K : ee_compute nd cs = Ok K -> shape 1 K.
Proof. intro H. exact (dshape_shape _ _ (ee_dshape cs K H)). Qed.

(* the width of what a class computes *)
Definition class_width (cls : text) : option nat :=
  if text_eqb cls (tx "belgium.DefaultAlgorithm") then Some 2
  else if text_eqb cls (tx "iso7064_mod97_10.DefaultAlgorithm") then Some 2
  else if text_eqb cls (tx "iso7064_mod97_10_variant.DefaultAlgorithm") then Some 2
  else if text_eqb cls (tx "france.DefaultAlgorithm") then Some 2
  else if text_eqb cls (tx "spain.DefaultAlgorithm") then Some 2
  else if text_eqb cls (tx "italy.DefaultAlgorithm") then Some 1
  else if text_eqb cls (tx "finland.DefaultAlgorithm") then Some 1
  else if text_eqb cls (tx "norway.DefaultAlgorithm") then Some 1
  else if text_eqb cls (tx "poland.DefaultAlgorithm") then Some 1
  else if text_eqb cls (tx "estonia.DefaultAlgorithm") then Some 1
  else None.      (* czech_republic computes nothing; iceland's digit has no field of its own (and can be "10") *)

Theorem national_class_shape cls accepts al vals K w :
  national_class e nd alphabet cls accepts = Some al -> al_compute al vals = Ok K ->
  class_width cls = Some w -> shape w K.
Proof.
  unfold national_class, class_width.
  repeat match goal with |- context [text_eqb cls ?t] => destruct (text_eqb cls t) end;
    intro H; inversion H; subst al; cbn [al_compute mk]; intros HK Hw; inversion Hw; subst w.
  - exact (be_shape _ _ HK).
  - exact (iso_shape _ _ HK).
  - exact (variant_shape _ _ HK).
  - exact (fr_shape _ _ HK).
  - exact (es_shape _ _ HK).
  - exact (it_shape _ _ HK).
  - exact (fi_shape _ _ HK).
  - exact (no_shape _ _ HK).
  - exact (pl_shape _ _ HK).
  - exact (ee_shape _ _ HK).
Qed.

(* the class of character a check-digit class computes *)
Definition class_kind (cls : text) : kind := if text_eqb cls (tx "italy.DefaultAlgorithm") then Ka else Kn.
Theorem national_class_kshape cls accepts al vals K w :
  national_class e nd alphabet cls accepts = Some al -> al_compute al vals = Ok K ->
  class_width cls = Some w -> forallb (kind_ok (class_kind cls)) K = true.
Proof.
  unfold national_class, class_width, class_kind.
  repeat match goal with |- context [text_eqb cls ?t] => destruct (text_eqb cls t) eqn:? end;
    intro H; inversion H; subst al; cbn [al_compute mk]; intros HK Hw; inversion Hw; subst w;
    try discriminate;
    try (exfalso; match goal with
         | H1 : text_eqb cls ?a = true, H2 : text_eqb cls ?b = true |- _ =>
           apply Proofs.CleanFacts.text_eqb_eq in H1; subst cls; vm_compute in H2; discriminate H2 end).
  - exact (proj2 (be_dshape _ _ HK)).
  - exact (proj2 (iso_dshape _ _ HK)).
  - exact (proj2 (variant_dshape _ _ HK)).
  - exact (proj2 (fr_dshape _ _ HK)).
  - exact (proj2 (es_dshape _ _ HK)).
  - exact (proj2 (it_ushape _ _ HK)).
  - exact (proj2 (fi_dshape _ _ HK)).
  - exact (proj2 (no_dshape _ _ HK)).
  - exact (proj2 (pl_dshape _ _ HK)).
  - exact (proj2 (ee_dshape _ _ HK)).
Qed.


(* the classes that compute a check digit validate by computing and comparing *)
Theorem national_class_default cls accepts al w :
  national_class e nd alphabet cls accepts = Some al -> class_width cls = Some w ->
  al_accepts al = accepts /\ al_validate al = default_validate (al_compute al) /\ 0 < w.
Proof.
  unfold national_class, class_width.
  repeat match goal with |- context [text_eqb cls ?t] => destruct (text_eqb cls t) end;
    intros H Hw; inversion H; subst al; inversion Hw; cbn [al_accepts al_validate al_compute mk];
    repeat split; lia.
Qed.

(* an accepting validation means the class's computation succeeded, and - for the classes that compare - returned
   the expected digits *)
Theorem national_class_valid_compute cls accepts al comps expected :
  national_class e nd alphabet cls accepts = Some al -> al_validate al comps expected = Ok true ->
  exists K, al_compute al comps = Ok K /\ (forall w, class_width cls = Some w -> K = expected).
Proof.
  unfold national_class, class_width.
  repeat match goal with |- context [text_eqb cls ?t] => destruct (text_eqb cls t) end;
    intro H; inversion H; subst al; cbn [al_compute al_validate mk]; intro HV;
    try (unfold default_validate in HV;
         match type of HV with context [bind ?c _] => destruct c as [K|x|x]; try discriminate end;
         cbn [bind] in HV; exists K; split; [reflexivity|]; intros w _; apply text_eqb_eq;
         inversion HV; reflexivity).
  - exists []. split; [reflexivity|]. intros w Hw. discriminate.
  - unfold is_validate in HV. destruct comps as [|h [|h2 comps]]; try discriminate.
    destruct (is_compute nd [h]) as [K|x|x]; try discriminate. exists K. split; [reflexivity|]. intros w Hw. discriminate.
Qed.
End Shapes.
