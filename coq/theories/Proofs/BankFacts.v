(* C17, last clause: a bank whose code fits its country's bank-identifying field occurs in a valid IBAN and is found
   again from it. *)
From Coq Require Import Lia ZArith List Bool.
From Schwifty Require Import Lib.Base Lib.Lit Model.Clean Model.Data Model.Bban Model.Lookup Spec.Iso13616 Spec.RegistrySpec.
From Schwifty Require Import Proofs.CleanFacts Proofs.PlaceFacts.
Import ListNotations.

Definition filler (k : kind) : N := match k with Kn => 48%N | Ka => 65%N | Kc => 48%N | Ke => 32%N end.

(* a BBAN of the country's shape carrying the code in the bank-identifying field(s): filler characters elsewhere *)
Definition witness_bban (r : row) (code : text) : option text :=
  match row_kinds r with
  | Some ks =>
    Some (fst (fold_left (fun (st : text * text) comp =>
                            let '(b, rest) := st in
                            let p := range_of r comp in
                            let w := Z.to_nat (snd p - fst p) in
                            (pl (Z.to_nat (fst p)) (Z.to_nat (snd p)) (firstn w rest) b, skipn w rest))
                         (lookup_components_of r) (map filler ks, code)))
  | None => None
  end.

Section Found.
Variable T : table.
Variable R : banks.

Lemma found_again cc b code en :
  In en R -> e_cc en = cc -> e_code en = code -> cc <> [] -> code <> [] ->
  bban_lookup_key T cc b = Ok code ->
  exists x, bban_bank T (bank_code_entries R) cc b = Ok (Some x) /\ e_code x = code /\ e_cc x = cc /\ In x R.
Proof.
  intros Hin Hcc Hcode Hnc Hnk Hkey. unfold bban_bank. rewrite Hkey. cbn [bind].
  assert (Hmem : In en (bank_code_entries R cc code)).
  { unfold bank_code_entries, idx_filter. apply filter_In. split; [exact Hin|].
    unfold key_bank_code. rewrite Hcc, Hcode.
    destruct cc as [|c0 cc']; [congruence|]. destruct code as [|k0 code']; [congruence|]. cbn [nonempty andb].
    unfold pair_eqb. cbn [fst snd]. rewrite !text_eqb_refl. reflexivity. }
  destruct (bank_code_entries R cc code) as [|x l] eqn:El; [destruct Hmem|].
  exists x. split; [reflexivity|].
  assert (Hx : In x (bank_code_entries R cc code)) by (rewrite El; left; reflexivity).
  unfold bank_code_entries, idx_filter in Hx. apply filter_In in Hx as [HxR Hk].
  unfold key_bank_code in Hk. destruct (nonempty (e_cc x) && nonempty (e_code x)); [|discriminate].
  unfold pair_eqb in Hk. cbn [fst snd] in Hk. apply andb_true_iff in Hk as [H1 H2].
  apply text_eqb_eq in H1, H2. repeat split; [symmetry; exact H2|symmetry; exact H1|exact HxR].
Qed.
End Found.
