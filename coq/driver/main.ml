(* Correspondence driver: reads one case per line (tab separated: function name, arguments),
   evaluates the extracted model/spec function, prints one result per line.
   text = comma separated code points ("-" for the empty string); bool = 0/1; int = decimal. *)
open Model

let rec pos_of_int n =
  if n = 1 then XH else if n land 1 = 0 then XO (pos_of_int (n lsr 1)) else XI (pos_of_int (n lsr 1))
let n_of_int n = if n = 0 then N0 else Npos (pos_of_int n)
let rec int_of_pos = function XH -> 1 | XO p -> 2 * int_of_pos p | XI p -> 2 * int_of_pos p + 1
let int_of_n = function N0 -> 0 | Npos p -> int_of_pos p
let z_of_int n = if n = 0 then Z0 else if n > 0 then Zpos (pos_of_int n) else Zneg (pos_of_int (-n))
let int_of_z = function Z0 -> 0 | Zpos p -> int_of_pos p | Zneg p -> - (int_of_pos p)

let text_of_string s =
  if s = "-" then [] else List.map (fun x -> n_of_int (int_of_string x)) (String.split_on_char ',' s)
let string_of_text t =
  if t = [] then "-" else String.concat "," (List.map (fun c -> string_of_int (int_of_n c)) t)
let bool_of_string' s = (s = "1")
let string_of_bool' b = if b then "1" else "0"
let texts_of_string s =   (* list of texts separated by ';' ; "" = empty list *)
  if s = "" then [] else List.map text_of_string (String.split_on_char ';' s)
let string_of_texts l = String.concat ";" (List.map string_of_text l)

(* JSON: prefix token stream separated by single spaces:
   n | t | f | i<int> | s<text> | a<count> <items...> | o<count> <key text> <value> ... *)
let parse_json (str : Stdlib.String.t) : json =
  let toks = ref (String.split_on_char ' ' str) in
  let next () = match !toks with [] -> failwith "json: eof" | x :: r -> toks := r; x in
  let rec go () =
    let tk = next () in
    let rest = String.sub tk 1 (String.length tk - 1) in
    match tk.[0] with
    | 'n' -> JNull | 't' -> JBool true | 'f' -> JBool false
    | 'i' -> JNum (z_of_int (int_of_string rest))
    | 's' -> JStr (text_of_string rest)
    | 'a' -> let n = int_of_string rest in JArr (List.init n (fun _ -> go ()))
    | 'o' -> let n = int_of_string rest in
      JObj (List.init n (fun _ -> let k = text_of_string (next ()) in let v = go () in (k, v)))
    | _ -> failwith "json: token" in
  go ()

let rec print_json (sorted : bool) (j : json) : Stdlib.String.t =
  match j with
  | JNull -> "n" | JBool true -> "t" | JBool false -> "f"
  | JNum z -> "i" ^ string_of_int (int_of_z z)
  | JStr s -> "s" ^ string_of_text s
  | JArr l -> String.concat " " (("a" ^ string_of_int (List.length l)) :: List.map (print_json sorted) l)
  | JObj kvs ->
    let kvs = List.map (fun (k, v) -> (List.map int_of_n k, v)) kvs in
    let kvs = if sorted then List.sort (fun (a, _) (b, _) -> compare a b) kvs else kvs in
    String.concat " " (("o" ^ string_of_int (List.length kvs)) ::
      List.concat_map (fun (k, v) ->
        [(if k = [] then "-" else String.concat "," (List.map string_of_int k)); print_json sorted v]) kvs)

(* bank list: one entry per line: id, cc, code, bic ("null" or s<text>), primary, algo ("none" or text) *)
let banks : entry list Lazy.t = lazy (
  let path = try Sys.getenv "VERIF_BANKS" with Not_found -> "banks.tsv" in
  let ic = open_in path in
  let acc = ref [] in
  (try
     while true do
       match String.split_on_char '\t' (input_line ic) with
       | [i; cc; code; bic; prim; algo] ->
         let bic = if bic = "null" then None else Some (text_of_string (String.sub bic 1 (String.length bic - 1))) in
         let algo = if algo = "none" then None else Some (text_of_string algo) in
         acc := x_mk_entry (n_of_int (int_of_string i)) (text_of_string cc) (text_of_string code) bic (prim = "1") algo :: !acc
       | _ -> failwith "banks.tsv: bad line"
     done
   with End_of_file -> close_in ic);
  List.rev !acc)
let bank_arr : entry array Lazy.t = lazy (Array.of_list (Lazy.force banks))

let exn_name = function
  | ESchwifty -> "SchwiftyException" | EInvalidLength -> "InvalidLength"
  | EInvalidStructure -> "InvalidStructure" | EInvalidCountryCode -> "InvalidCountryCode"
  | EInvalidBankCode -> "InvalidBankCode" | EInvalidBranchCode -> "InvalidBranchCode"
  | EInvalidAccountCode -> "InvalidAccountCode" | EInvalidChecksumDigits -> "InvalidChecksumDigits"
  | EInvalidBBANChecksum -> "InvalidBBANChecksum"
  | EGenerateRandomOverflow -> "GenerateRandomOverflowError"
let pyexc_name = function
  | PValueError -> "ValueError" | PKeyError -> "KeyError" | PIndexError -> "IndexError"
  | PTypeError -> "TypeError" | PAssertionError -> "AssertionError"

let out f = function
  | Ok a -> "OK " ^ f a
  | Err e -> "ERR " ^ exn_name e
  | Crash c -> "CRASH " ^ pyexc_name c

let method_of_string = function
  | "match" -> MMatch | "fullmatch" -> MFull | "search" -> MSearch | _ -> failwith "method"

let dispatch fn a =
  let t i = text_of_string a.(i) and b i = bool_of_string' a.(i) in
  match fn with
  | "noop" -> "-"
  | "clean" -> string_of_text (x_clean (t 0))
  | "iban_new" -> out string_of_text (x_iban_new (Lazy.force banks) (t 0) (b 1) (b 2))
  | "iban_new_after" | "iban_new_inst" -> out string_of_text (x_iban_new (Lazy.force banks) (t 0) (b 1) (b 2))
  | "iban_validate_after" -> out string_of_bool' (x_iban_validate (Lazy.force banks) (b 1) (x_clean (t 0)))
  | "iban_validate" -> out string_of_bool' (x_iban_validate (Lazy.force banks) (b 1) (x_clean (t 0)))
  | "iban_is_valid" -> out string_of_bool' (x_iban_is_valid (Lazy.force banks) (x_clean (t 0)))
  | "iban_from_bban" -> out string_of_text (x_iban_from_bban (Lazy.force banks) (t 0) (t 1) (b 2) (b 3))
  | "iban_formatted" -> string_of_text (x_iban_formatted (x_clean (t 0)))
  | "spec_iban_accept" | "spec_iban_accept_any" -> string_of_bool' (s_iso_ok (s_clean (t 0)))
  | "spec_from_bban" -> "OK " ^ string_of_text (t 0 @ s_check_digits (t 0) (t 1) @ t 1)
  | "re_chars" -> string_of_bool' (x_pat_apply x_chars_method x_chars_pat (t 0))
  | "re_row" ->
    (match x_row_regex (t 0) with
     | Some p -> string_of_bool' (x_pat_apply (method_of_string a.(1)) p (t 2))
     | None -> "NOROW")
  | "bic_new" | "bic_new_inst" -> out string_of_text (x_bic_new (t 0) (b 1) (b 2))
  | "bic_validate" -> out string_of_bool' (x_bic_validate (b 1) (x_clean (t 0)))
  | "bic_is_valid" -> out string_of_bool' (x_bic_is_valid (x_clean (t 0)))
  | "bic_formatted" -> string_of_text (x_bic_formatted (x_clean (t 0)))
  | "bic_parts" -> string_of_texts (x_bic_parts (x_clean (t 0)))
  | "re_bic" -> string_of_bool' (x_pat_apply (method_of_string a.(1)) (x_bic_pat (b 0)) (t 2))
  | "spec_bic_accept" | "spec_bic_accept_any" -> string_of_bool' (s_iso9362_ok (b 1) (s_clean (t 0)))
  | "spec_iban_verdict" ->
    (match s_iban_verdict (t 0) with None -> "ACCEPT" | Some l -> "REJECT|" ^ String.concat "|" (List.map exn_name l))
  | "spec_bic_verdict" ->
    (match s_bic_verdict (b 1) (t 0) with None -> "ACCEPT" | Some l -> "REJECT|" ^ String.concat "|" (List.map exn_name l))
  | "spec_variant_same_api" -> "SAME"
  | "spec_variant_same" -> if x_text_eqb (x_clean (t 0)) (x_clean (t 1)) then "SAME" else "SAME|DIFF"
  | "iban_formatted_rt" ->
    let s = x_clean (t 0) in let f = x_iban_formatted s in
    string_of_text f ^ "|RT" ^ string_of_bool' (x_text_eqb (x_clean f) s)
  | "bic_formatted_rt" ->
    let s = x_clean (t 0) in let f = x_bic_formatted s in
    string_of_text f ^ "|RT" ^ string_of_bool' (x_text_eqb (x_clean f) s)
  | "iban_decomp" | "iban_decomp_bbanobj" ->
    let s = x_clean (t 0) in
    let cc = x_iban_cc s and bb = x_iban_bban s in
    let comps = List.map (fun k -> out string_of_text (x_bban_component cc bb k)) (texts_of_string a.(1)) in
    String.concat " / " ([string_of_text cc; string_of_text (x_iban_dd s); string_of_text bb] @ comps
       @ [out string_of_text (x_iban_from_bban (Lazy.force banks) cc bb true false)])
  | "merge_dicts" ->
    (match parse_json a.(0), parse_json a.(1) with
     | JObj l, JObj r -> print_json true (JObj (x_merge_dicts l r))
     | _ -> "NOT-OBJECTS")
  | "parse_v2" -> out (fun l -> print_json true (JArr l)) (x_parse_v2 (parse_json a.(0)))
  | "registry_get" ->
    (* args: pairs (is_v2 flag, json) in file-name order *)
    let n = Array.length a / 2 in
    let files = List.init n (fun i -> (bool_of_string' a.(2 * i), parse_json a.(2 * i + 1))) in
    out (function RNone -> "NONE" | RList l -> print_json true (JArr l) | RDict o -> print_json true (JObj o))
      (x_registry_get files)
  | "candidates" -> out string_of_texts (x_candidates (Lazy.force banks) (t 0) (t 1))
  | "from_bank_code" -> out string_of_text (x_from_bank_code (Lazy.force banks) (t 0) (t 1))
  | "bic_domestic" -> string_of_texts (x_domestic_bank_codes (Lazy.force banks) (t 0)) ^ " exists=" ^ string_of_bool' (x_bic_exists (Lazy.force banks) (t 0))
  | "bic_names" | "bic_short_names" ->
    String.concat "," (List.map (fun i -> string_of_int (int_of_n i)) (x_bank_ids (Lazy.force banks) (t 0)))
  | "iban_bank_lookup" ->
    (match x_iban_from_bban (Lazy.force banks) (t 0) (t 1) false false with
     | Ok s ->
       let cc = x_iban_cc s and bb = x_iban_bban s in
       let bank = (match x_bban_bank (Lazy.force banks) cc bb with
                   | Ok (Some en) -> string_of_int (int_of_n en.e_id) | Ok None -> "none"
                   | Err e -> "ERR " ^ exn_name e | Crash c -> "CRASH " ^ pyexc_name c) in
       let bic = (match x_bban_bic (Lazy.force banks) cc bb with
                  | Ok (Some b) -> string_of_text b | Ok None -> "none"
                  | Err e -> "ERR " ^ exn_name e | Crash c -> "CRASH " ^ pyexc_name c) in
       "OK bank=" ^ bank ^ " bic=" ^ bic
     | Err e -> "ERR " ^ exn_name e | Crash c -> "CRASH " ^ pyexc_name c)
  | "n_banks" -> string_of_int (Array.length (Lazy.force bank_arr))
  | "spec_wf_bank" ->
    let i = int_of_string a.(0) in
    let arr = Lazy.force bank_arr in
    if i < 0 || i >= Array.length arr then "0" else string_of_bool' (s_wf_bank arr.(i))
  | "spec_wf_country" -> string_of_bool' (s_wf_country (t 0))
  | "validate_national" -> out string_of_bool' (x_national (Lazy.force banks) (t 0) (x_clean (t 1)))
  | "from_components" | "from_components_partial" ->
    out string_of_text (x_from_components (t 0) [(k_bank, t 1); (k_branch, t 2); (k_account, t 3)])
  | "generate" -> out string_of_text (x_generate (Lazy.force banks) (t 0) (t 1) (t 2) (t 3))
  | "spec_national_accept" | "spec_national_accept_after" ->
    let s = x_clean (t 0) in
    string_of_bool' (s_iso_ok s && s_published_ok (x_iban_cc s) (x_iban_bban s))
  | "spec_unlisted_pair" | "spec_lookup_empty_code" | "spec_components_national" | "spec_no_foreign_exception" | "spec_only_rejects" | "spec_generate" | "spec_generate_national" | "spec_rebuild" | "spec_random" | "spec_value_laws" | "spec_copies" -> "OK"
  | "spec_published" -> string_of_bool' (s_published_ok (t 0) (t 1))
  | "generated_published" -> if a.(0) = "-" then "SKIP" else string_of_bool' (s_published_ok (t 0) (t 1))
  | "algo_validate" -> out string_of_bool' (x_algo_validate (t 0) (texts_of_string a.(1)) (t 2))
  | "algo_compute" -> out string_of_text (x_algo_compute (t 0) (texts_of_string a.(1)))
  | "spec_german" ->
    (match s_bb (t 0) (t 1) with Some true -> "1" | Some false -> "0" | None -> "NOSPEC")
  | "random" ->
    (* kind (bban|iban), cc, use_registry, pins "k=v;k=v" (texts), country idx, bank idx, draws *)
    let pins = List.map (fun kv -> match String.split_on_char '=' kv with
                                   | [k; v] -> (text_of_string k, text_of_string v) | _ -> failwith "pin")
                 (if a.(3) = "" then [] else String.split_on_char ';' a.(3)) in
    let ci = int_of_string a.(4) and bi = int_of_string a.(5) in
    let draws = texts_of_string a.(6) in
    let rec nat_of_int n = if n <= 0 then O else S (nat_of_int (n - 1)) in
    if a.(0) = "bban" then
      out (fun (cc, bb) -> string_of_text cc ^ " " ^ string_of_text bb)
        (x_random_bban (Lazy.force banks) (t 1) (b 2) pins (nat_of_int ci) (nat_of_int bi) draws)
    else
      out string_of_text (x_random_iban (Lazy.force banks) (t 1) (b 2) pins (nat_of_int ci) (nat_of_int bi) draws)
  | "history_probe" -> "PROBE"
  | "spec_iso_ok" -> string_of_bool' (s_iso_ok (t 0))
  | "spec_check_digits" -> string_of_text (s_check_digits (t 0) (t 1))
  | "spec_conforms" -> string_of_bool' (s_conforms (t 0) (t 1))
  | _ -> "UNKNOWN-FUNCTION " ^ fn

let () =
  try
    while true do
      let line = input_line stdin in
      match String.split_on_char '\t' line with
      | [] -> print_endline "EMPTY"
      | fn :: args ->
        let r = try dispatch fn (Array.of_list args) with
          | Stack_overflow -> "DRIVER-ERROR stack overflow"
          | e -> "DRIVER-ERROR " ^ Printexc.to_string e in
        print_endline r
    done
  with End_of_file -> ()
